"""Shape helpers shared by the formula / mechanism rules.

The rules built on these follow the positive-evidence policy: a construct is *recognised* (and then
either right or provably wrong) or it is not recognised (inconclusive).  Everything here is
syntactic normalisation: comparisons to a canonical `diff op 0`, helper calls to parameter bindings,
local aliases to the field they were copied from."""
import ast
from typing import Dict, List, Optional, Tuple

from .model import Repo, FunctionInfo, AnalysisError, walk_no_nested, src, call_name
from .dataflow import Defs
from .ratfun import Normalizer, RF, Poly


def helper_calls(repo: Repo, f: FunctionInfo, depth: int = 2) -> List[Tuple[FunctionInfo, Dict[str, ast.AST], ast.Call]]:
    """(helper, {helper parameter -> argument expression at the call, in the caller's terms}, call)
    for the same-class methods and same-module functions called (transitively up to `depth`) by f."""
    out = []
    seen = {id(f.node)}

    def visit(g: FunctionInfo, d: int):
        for x in walk_no_nested(g.node):
            if not isinstance(x, ast.Call):
                continue
            h = None
            skip_self = False
            if isinstance(x.func, ast.Attribute) and isinstance(x.func.value, ast.Name) and x.func.value.id in ("self", "cls") and g.cls is not None:
                h = g.cls.find_method(x.func.attr)
                skip_self = True
            elif isinstance(x.func, ast.Name):
                h = next((k for k in repo.functions if k.module is g.module and k.cls is None and k.name == x.func.id), None)
            if h is None or id(h.node) in seen:
                continue
            seen.add(id(h.node))
            params = h.params()
            decos = [src(dn) for dn in h.node.decorator_list]
            if h.cls is not None and "staticmethod" not in decos and skip_self:
                params = params[1:]
            elif h.cls is not None and "staticmethod" not in decos:
                params = params[1:]
            binding = {}
            for p, a in zip(params, x.args):
                binding[p] = a
            for kw in x.keywords:
                if kw.arg:
                    binding[kw.arg] = kw.value
            out.append((h, binding, x))
            if d > 1:
                visit(h, d - 1)
    visit(f, depth)
    return out


def resolve_alias(e, defs: Defs, depth: int = 4):
    """follow single-definition local aliases: `var = self.poly1` -> self.poly1; tuple unpacking handled by Defs"""
    while depth > 0 and isinstance(e, ast.Name) and e.id in defs.defs and e.id not in defs.params:
        vals = defs.defs[e.id]
        if len(vals) != 1 or not isinstance(vals[0], ast.expr):
            break
        e = vals[0]
        depth -= 1
    return e


_FLIP = {ast.Lt: ast.Gt, ast.Gt: ast.Lt, ast.LtE: ast.GtE, ast.GtE: ast.LtE, ast.Eq: ast.Eq, ast.NotEq: ast.NotEq}
_NEG = {"<": ">=", "<=": ">", ">": "<=", ">=": "<", "==": "!=", "!=": "=="}
_OPS = {ast.Lt: "<", ast.Gt: ">", ast.LtE: "<=", ast.GtE: ">=", ast.Eq: "==", ast.NotEq: "!="}


def cmp_canon(test, truth: bool, nz: Normalizer) -> Optional[Tuple[RF, str]]:
    """canonical form `d op 0` (op in <, <=, ==, !=) of a single comparison that is known to evaluate to `truth`;
    None when the test is not a single binary comparison"""
    while isinstance(test, ast.UnaryOp) and isinstance(test.op, ast.Not):
        test = test.operand
        truth = not truth
    if not (isinstance(test, ast.Compare) and len(test.ops) == 1 and type(test.ops[0]) in _OPS):
        return None
    op = _OPS[type(test.ops[0])]
    if not truth:
        op = _NEG[op]
    try:
        d = nz(test.left) - nz(test.comparators[0])
    except AnalysisError:
        return None
    if op in (">", ">="):
        d = -d
        op = "<" if op == ">" else "<="
    return d, op


def conjuncts(test, truth: bool) -> List[Tuple[ast.AST, bool]]:
    """atomic facts known when `test` evaluated to `truth` (And under True, Or under False are split)"""
    if isinstance(test, ast.UnaryOp) and isinstance(test.op, ast.Not):
        return conjuncts(test.operand, not truth)
    if isinstance(test, ast.BoolOp):
        if (isinstance(test.op, ast.And) and truth) or (isinstance(test.op, ast.Or) and not truth):
            out = []
            for v in test.values:
                out += conjuncts(v, truth)
            return out
        return [(test, truth)]
    return [(test, truth)]


def ifexp_facts(node) -> List[Tuple[ast.AST, bool]]:
    """facts known at `node` because it sits in an arm of conditional expressions:  A if t else B"""
    from .model import parent
    out = []
    cur, par = node, parent(node)
    while par is not None and not isinstance(par, (ast.FunctionDef, ast.AsyncFunctionDef, ast.Lambda, ast.Module)):
        if isinstance(par, ast.IfExp):
            if cur is par.body:
                out += conjuncts(par.test, True)
            elif cur is par.orelse:
                out += conjuncts(par.test, False)
        cur, par = par, parent(par)
    return out


def inline_locals(e, defs: Defs, keep=(), depth: int = 3):
    """copy of expression `e` in which every load of a single-definition local (not a parameter, not in `keep`) is replaced by the
    expression it was assigned:  h = f(x); y = a * h   is read as   y = a * f(x).   Positions are kept (copy_location)."""
    import copy

    class R(ast.NodeTransformer):
        def __init__(self, d):
            self.d = d

        def visit_Name(self, n):
            if not isinstance(n.ctx, ast.Load) or n.id in keep or n.id in defs.params or self.d <= 0:
                return n
            vals = defs.defs.get(n.id, [])
            if len(vals) != 1 or not isinstance(vals[0], ast.expr) or any(isinstance(x, ast.Name) and x.id == n.id for x in ast.walk(vals[0])):
                return n
            sites = defs.def_sites.get(n.id, [])
            if sites and not isinstance(sites[0], ast.Assign):
                return n
            new = R(self.d - 1).visit(copy.deepcopy(vals[0]))
            return ast.copy_location(new, n) if hasattr(n, "lineno") else new
    return R(depth).visit(copy.deepcopy(e))
