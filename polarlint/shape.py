"""Shape helpers shared by the formula / mechanism rules.

The rules built on these follow the positive-evidence policy: a construct is *recognised* (and then
either right or provably wrong) or it is not recognised (inconclusive).  Everything here is
syntactic normalisation: comparisons to a canonical `diff op 0`, helper calls to parameter bindings,
local aliases to the field they were copied from."""
import ast
from typing import Dict, List, Optional, Set, Tuple

from .model import Repo, FunctionInfo, AnalysisError, walk_no_nested, src, call_name, clone, set_parents, parent
from .dataflow import Defs
from .ratfun import Normalizer, RF, Poly


def helper_calls(repo: Repo, f: FunctionInfo, depth: int = 2) -> List[Tuple[FunctionInfo, Dict[str, ast.AST], ast.Call]]:
    """(helper, {helper parameter -> argument expression at the call, in the caller's terms}, call)
    for the same-class methods and same-module functions called (transitively up to `depth`) by f."""
    out = []
    seen = {id(f.node)}

    def visit(g: FunctionInfo, d: int):
        for x in walk_no_nested(g.node):
            if not isinstance(x, ast.Call):
                continue
            h = None
            skip_self = False
            if isinstance(x.func, ast.Attribute) and isinstance(x.func.value, ast.Name) and x.func.value.id in ("self", "cls") and g.cls is not None:
                h = g.cls.find_method(x.func.attr)
                skip_self = True
            elif isinstance(x.func, ast.Name):
                h = next((k for k in repo.functions if k.module is g.module and k.cls is None and k.name == x.func.id), None)
            if h is None or id(h.node) in seen:
                continue
            seen.add(id(h.node))
            params = h.params()
            decos = [src(dn) for dn in h.node.decorator_list]
            if h.cls is not None and "staticmethod" not in decos and skip_self:
                params = params[1:]
            elif h.cls is not None and "staticmethod" not in decos:
                params = params[1:]
            binding = {}
            for p, a in zip(params, x.args):
                binding[p] = a
            for kw in x.keywords:
                if kw.arg:
                    binding[kw.arg] = kw.value
            out.append((h, binding, x))
            if d > 1:
                visit(h, d - 1)
    visit(f, depth)
    return out


def resolve_alias(e, defs: Defs, depth: int = 4):
    """follow single-definition local aliases: `var = self.poly1` -> self.poly1; tuple unpacking handled by Defs"""
    while depth > 0 and isinstance(e, ast.Name) and e.id in defs.defs and e.id not in defs.params:
        vals = defs.defs[e.id]
        if len(vals) != 1 or not isinstance(vals[0], ast.expr):
            break
        e = vals[0]
        depth -= 1
    return e


_FLIP = {ast.Lt: ast.Gt, ast.Gt: ast.Lt, ast.LtE: ast.GtE, ast.GtE: ast.LtE, ast.Eq: ast.Eq, ast.NotEq: ast.NotEq}
_NEG = {"<": ">=", "<=": ">", ">": "<=", ">=": "<", "==": "!=", "!=": "=="}
_OPS = {ast.Lt: "<", ast.Gt: ">", ast.LtE: "<=", ast.GtE: ">=", ast.Eq: "==", ast.NotEq: "!="}


def cmp_canon(test, truth: bool, nz: Normalizer) -> Optional[Tuple[RF, str]]:
    """canonical form `d op 0` (op in <, <=, ==, !=) of a single comparison that is known to evaluate to `truth`;
    None when the test is not a single binary comparison"""
    while isinstance(test, ast.UnaryOp) and isinstance(test.op, ast.Not):
        test = test.operand
        truth = not truth
    if not (isinstance(test, ast.Compare) and len(test.ops) == 1 and type(test.ops[0]) in _OPS):
        return None
    op = _OPS[type(test.ops[0])]
    if not truth:
        op = _NEG[op]
    try:
        d = nz(test.left) - nz(test.comparators[0])
    except AnalysisError:
        return None
    if op in (">", ">="):
        d = -d
        op = "<" if op == ">" else "<="
    return d, op


def conjuncts(test, truth: bool) -> List[Tuple[ast.AST, bool]]:
    """atomic facts known when `test` evaluated to `truth` (And under True, Or under False are split)"""
    if isinstance(test, ast.UnaryOp) and isinstance(test.op, ast.Not):
        return conjuncts(test.operand, not truth)
    if isinstance(test, ast.BoolOp):
        if (isinstance(test.op, ast.And) and truth) or (isinstance(test.op, ast.Or) and not truth):
            out = []
            for v in test.values:
                out += conjuncts(v, truth)
            return out
        return [(test, truth)]
    return [(test, truth)]


def ifexp_facts(node) -> List[Tuple[ast.AST, bool]]:
    """facts known at `node` because it sits in an arm of conditional expressions:  A if t else B"""
    from .model import parent
    out = []
    cur, par = node, parent(node)
    while par is not None and not isinstance(par, (ast.FunctionDef, ast.AsyncFunctionDef, ast.Lambda, ast.Module)):
        if isinstance(par, ast.IfExp):
            if cur is par.body:
                out += conjuncts(par.test, True)
            elif cur is par.orelse:
                out += conjuncts(par.test, False)
        cur, par = par, parent(par)
    return out


def inline_locals(e, defs: Defs, keep=(), depth: int = 3):
    """copy of expression `e` in which every load of a single-definition local (not a parameter, not in `keep`) is replaced by the
    expression it was assigned:  h = f(x); y = a * h   is read as   y = a * f(x).   Positions are kept."""

    class R(ast.NodeTransformer):
        def __init__(self, d):
            self.d = d

        def visit_Name(self, n):
            if not isinstance(n.ctx, ast.Load) or n.id in keep or n.id in defs.params or self.d <= 0:
                return n
            vals = defs.defs.get(n.id, [])
            if len(vals) != 1 or not isinstance(vals[0], ast.expr) or any(isinstance(x, ast.Name) and x.id == n.id for x in ast.walk(vals[0])):
                return n
            sites = defs.def_sites.get(n.id, [])
            if sites and not isinstance(sites[0], ast.Assign):
                return n
            return R(self.d - 1).visit(clone(vals[0]))
    out = R(depth).visit(clone(e))
    set_parents(out, parent(e))
    return out


_EXPANDED: Dict[tuple, Tuple[ast.AST, ast.AST]] = {}


def expanded(repo: Repo, f: FunctionInfo, depth: int = 2, keep=()):
    """The body of f with the calls of same-class methods / same-module functions it makes *as statements* replaced by the callee's
    body (an analysis view: `extract method` undone).  Replaced are
        self.h(args)                      (expression statement)
        T = self.h(args)                  (callee: at most one `return`, as its last statement)
        return self.h(args)               (tail call: every return of the callee becomes a return of f)
    for *private* callees (name starts with an underscore -- public methods are interface, not extracted code; `keep` names callees a
    rule anchors on and wants to stay calls) without decorators other than staticmethod / classmethod, without yield / global / nonlocal / nested functions, not
    recursive.  Parameters are bound by `p = arg` assignments in front (none when the argument is the same name); callee locals that
    clash with names of f are renamed.  Returns a FunctionDef node with parent links (its own parent is f.node's parent); the original
    tree is untouched.  Callee statements keep their own line numbers."""
    key = (id(f.node), depth, tuple(sorted(keep)))
    hit = _EXPANDED.get(key)
    if hit is not None and hit[0] is f.node:
        return hit[1]
    root = clone(f.node)
    counter = [0]
    fn_root_holder = [root]

    def _anc(n):
        cur = getattr(n, "_parent", None)
        while cur is not None and cur is not root:
            yield cur
            cur = getattr(cur, "_parent", None)

    def callee_of(call, g: FunctionInfo):
        h = None
        if isinstance(call.func, ast.Attribute) and isinstance(call.func.value, ast.Name) and g.cls is not None and call.func.value.id in ("self", "cls", g.cls.name):
            h = g.cls.find_method(call.func.attr)
        elif isinstance(call.func, ast.Name):
            h = next((k for k in repo.functions if k.module is g.module and k.cls is None and k.name == call.func.id), None)
        if h is None or h.node is f.node or not h.name.startswith("_") or h.name in keep:
            return None
        decos = [src(d) for d in h.node.decorator_list]
        if any(d not in ("staticmethod", "classmethod") for d in decos):
            return None
        a = h.node.args
        if a.vararg or a.kwarg or a.posonlyargs or a.kwonlyargs:
            return None
        for x in ast.walk(h.node):
            if x is not h.node and isinstance(x, (ast.FunctionDef, ast.AsyncFunctionDef, ast.Lambda, ast.ClassDef, ast.Global, ast.Nonlocal, ast.Yield, ast.YieldFrom, ast.Await)):
                return None
            if isinstance(x, ast.Attribute) and x.attr == h.name and isinstance(x.value, ast.Name) and x.value.id in ("self", "cls"):
                return None
            if isinstance(x, ast.Call) and isinstance(x.func, ast.Name) and x.func.id in (h.name, "super"):
                return None
        return h

    def bind(h: FunctionInfo, call, caller_names: Set[str]):
        params = [x.arg for x in h.node.args.args]
        decos = [src(d) for d in h.node.decorator_list]
        env: Dict[str, ast.AST] = {}
        ps = list(params)
        if h.cls is not None and "staticmethod" not in decos:
            if not ps:
                return None
            env[ps[0]] = call.func.value if isinstance(call.func, ast.Attribute) else ast.Name(id="self", ctx=ast.Load())
            ps = ps[1:]
        if any(isinstance(x, ast.Starred) for x in call.args) or any(k.arg is None for k in call.keywords) or len(call.args) > len(ps):
            return None
        for p_, v in zip(ps, call.args):
            env[p_] = v
        for k in call.keywords:
            if k.arg not in ps or k.arg in env:
                return None
            env[k.arg] = k.value
        dfl = h.node.args.defaults
        for i, d in enumerate(dfl):
            env.setdefault(params[len(params) - len(dfl) + i], d)
        if any(p_ not in env for p_ in ps):
            return None
        body = clone([st for i, st in enumerate(h.node.body) if not (i == 0 and isinstance(st, ast.Expr) and isinstance(st.value, ast.Constant) and isinstance(st.value.value, str))])
        # names of the callee: parameters + stored locals; rename those that clash with the caller unless they are the same-name argument
        stored = {x.id for st in body for x in ast.walk(st) if isinstance(x, ast.Name) and isinstance(x.ctx, ast.Store)}
        counter[0] += 1
        ren: Dict[str, str] = {}
        pre = []
        for p_ in params:
            arg = env[p_]
            if isinstance(arg, ast.Name) and arg.id == p_:
                continue
            if isinstance(arg, ast.Name) and arg.id not in ("self", "cls") and p_ not in ("self", "cls") and arg.id not in stored and arg.id not in params:
                # the argument is a local of the caller: the callee's parameter IS that local, unless the callee re-binds the parameter and
                # the caller still reads its own variable afterwards (then the two must stay apart)
                rebinds = p_ in stored
                later = any(isinstance(x, ast.Name) and x.id == arg.id and isinstance(x.ctx, ast.Load) and getattr(x, "lineno", 0) > getattr(call, "end_lineno", getattr(call, "lineno", 0))
                            for x in ast.walk(fn_root_holder[0])) or any(isinstance(a_, (ast.For, ast.While)) for a_ in _anc(call))
                if not (rebinds and later):
                    ren[p_] = arg.id
                    continue
            if p_ in ("self", "cls") and isinstance(arg, ast.Name) and arg.id in ("self", "cls"):
                if arg.id != p_:
                    ren[p_] = arg.id
                continue
            tgt = p_ if p_ not in caller_names else f"{p_}__{h.name.strip('_')}{counter[0]}"
            if tgt != p_:
                ren[p_] = tgt
            a_ = ast.Assign(targets=[ast.Name(id=tgt, ctx=ast.Store())], value=clone(arg))
            ast.copy_location(a_, call)
            for x in ast.walk(a_):
                if not hasattr(x, "lineno"):
                    ast.copy_location(x, call)
            pre.append(a_)
        for nm in stored:
            if nm in caller_names and nm not in params:
                ren[nm] = f"{nm}__{h.name.strip('_')}{counter[0]}"
        if ren:
            for st in body:
                for x in ast.walk(st):
                    if isinstance(x, ast.Name) and x.id in ren:
                        x.id = ren[x.id]
                    if isinstance(x, ast.ExceptHandler) and x.name in ren:
                        x.name = ren[x.name]
        return pre, body

    def process(fn_root, g: FunctionInfo, d: int):
        fn_root_holder[0] = fn_root
        if d <= 0:
            return
        changed = True
        rounds = 0
        while changed and rounds < 3:
            changed = False
            rounds += 1
            set_parents(fn_root, None)
            caller_names = {x.id for x in ast.walk(fn_root) if isinstance(x, ast.Name)} | {a.arg for a in fn_root.args.args}
            for owner in list(ast.walk(fn_root)):
                if owner is not fn_root and isinstance(owner, (ast.FunctionDef, ast.AsyncFunctionDef, ast.Lambda, ast.ClassDef)):
                    continue
                for fld in ("body", "orelse", "finalbody"):
                    blk = getattr(owner, fld, None)
                    if not isinstance(blk, list):
                        continue
                    i = 0
                    while i < len(blk):
                        st = blk[i]
                        call = None
                        mode = None
                        if isinstance(st, ast.Expr) and isinstance(st.value, ast.Call):
                            call, mode = st.value, "expr"
                        elif isinstance(st, ast.Assign) and isinstance(st.value, ast.Call):
                            call, mode = st.value, "assign"
                        elif isinstance(st, ast.Return) and isinstance(st.value, ast.Call):
                            call, mode = st.value, "tail"
                        h = callee_of(call, g) if call is not None else None
                        if h is None:
                            i += 1
                            continue
                        rets = [r for r in walk_no_nested(h.node) if isinstance(r, ast.Return)]
                        last_is_ret = bool(h.node.body) and isinstance(h.node.body[-1], ast.Return)
                        single_tail_return = len(rets) == 0 or (len(rets) == 1 and last_is_ret)
                        if mode in ("expr", "assign") and not single_tail_return:
                            i += 1
                            continue
                        b = bind(h, call, caller_names)
                        if b is None:
                            i += 1
                            continue
                        pre, body = b
                        new = pre + body
                        if mode in ("expr", "assign") and new and isinstance(new[-1], ast.Return):
                            r = new.pop()
                            if mode == "assign":
                                same = len(st.targets) == 1 and r.value is not None and src(st.targets[0]) == src(r.value)
                                if not same:         # x = x  (the helper returned the accumulator it was given) is dropped
                                    a_ = ast.Assign(targets=clone(st.targets), value=r.value if r.value is not None else ast.Constant(value=None))
                                    ast.copy_location(a_, st)
                                    new.append(a_)
                            elif r.value is not None:
                                e_ = ast.Expr(value=r.value)
                                ast.copy_location(e_, st)
                                new.append(e_)
                        elif mode == "assign":
                            a_ = ast.Assign(targets=clone(st.targets), value=ast.Constant(value=None))
                            ast.copy_location(a_, st)
                            new.append(a_)
                        elif mode == "tail" and not (new and isinstance(new[-1], (ast.Return, ast.Raise))):
                            r_ = ast.Return(value=None)
                            ast.copy_location(r_, st)
                            new.append(r_)
                        if not new:
                            new = [ast.copy_location(ast.Pass(), st)]
                        blk[i:i + 1] = new
                        caller_names |= {x.id for s_ in new for x in ast.walk(s_) if isinstance(x, ast.Name)}
                        changed = True
                        i += len(new)
            d -= 1
            if d <= 0:
                break
    process(root, f, depth)
    ast.fix_missing_locations(root)
    set_parents(root, parent(f.node))
    _EXPANDED[key] = (f.node, root)
    return root


def callers_of(repo: Repo, f: FunctionInfo) -> List[FunctionInfo]:
    """functions that mention f by name: through self./cls./ClassName. in a class whose hierarchy resolves the name to f (so a helper of a
    base class is found from its subclasses), or by bare name in a module where the name resolves to f (calls and references such as
    map(self._h, xs)); a private helper's callers are where its body logically belongs"""
    idx = getattr(repo, "_callers_idx", None)
    if idx is None:
        idx = {}
        for g in repo.functions:
            for x in walk_no_nested(g.node):
                h = None
                if isinstance(x, ast.Attribute) and isinstance(x.value, ast.Name) and g.cls is not None and x.value.id in ("self", "cls", g.cls.name):
                    h = g.cls.find_method(x.attr)
                    if h is None:
                        # defined only in subclasses (template method): every subclass definition is a candidate
                        for sub in repo.subclasses(g.cls):
                            hm = sub.methods.get(x.attr)
                            if hm is not None:
                                idx.setdefault(id(hm.node), []).append(g)
                elif isinstance(x, ast.Name) and isinstance(x.ctx, ast.Load):
                    try:
                        r = repo.resolve_name(g.module, x.id)
                    except Exception:
                        r = None
                    if r and r[0] == "func":
                        h = r[1]
                if h is not None:
                    idx.setdefault(id(h.node), []).append(g)
        repo._callers_idx = idx  # type: ignore
    out = idx.get(id(f.node), [])
    seen, res = set(), []
    for g in out:
        if g.node is not f.node and id(g.node) not in seen:
            seen.add(id(g.node))
            res.append(g)
    return res


def only_reached_from(repo: Repo, f: FunctionInfo, accept, depth: int = 3) -> bool:
    """f is a private helper all of whose (transitive) callers satisfy accept(g)"""
    if depth <= 0 or not f.name.startswith("_"):
        return False
    cs = callers_of(repo, f)
    if not cs:
        return False
    return all(accept(g) or only_reached_from(repo, g, accept, depth - 1) for g in cs)
