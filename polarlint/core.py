"""Obligations, rule registry, mutation helpers, evidence and verdict plumbing."""
import ast
import copy
import json
import os
import time
import traceback
from typing import Callable, Dict, List, Optional

from .model import Repo, AnalysisError, Module

VERIF = os.path.dirname(os.path.dirname(os.path.abspath(__file__)))


class Ob:
    """One proof obligation produced by a rule on one construct."""
    __slots__ = ("rule", "key", "file", "line", "where", "ok", "msg", "witness", "trivial", "inconclusive")

    def __init__(self, rule: str, key: str, file: str, line: int, where: str, ok: bool, msg: str,
                 witness: str = "", trivial: bool = False, inconclusive: bool = False):
        self.rule = rule          # rule id, e.g. "A2-writeback"
        self.key = key            # stable key of the construct (no line numbers)
        self.file = file
        self.line = line
        self.where = where        # qualname
        self.ok = ok
        self.msg = msg
        self.witness = witness
        self.trivial = trivial
        # the rule found its anchor but not a shape it can judge: neither discharged nor violated.
        # Counts as "not a violation" (never an alarm), is reported, and is never counted as discharged.
        self.inconclusive = inconclusive
        if inconclusive:
            self.ok = True

    def full_key(self):
        return f"{self.rule}/{self.key}"

    def as_dict(self):
        return {"rule": self.rule, "key": self.key, "at": f"{self.file}:{self.line}", "in": self.where,
                "verdict": ("inconclusive" if self.inconclusive else "holds") if self.ok else "VIOLATED", "detail": self.msg, "witness": self.witness}

    def __repr__(self):
        return f"{('?? ' if self.inconclusive else 'ok ') if self.ok else 'BAD'} {self.rule} {self.file}:{self.line} {self.where}: {self.msg}"


def inconclusive(rule: str, key: str, file: str, line: int, where: str, why: str) -> Ob:
    """obligation for 'anchor present, shape not recognised'"""
    return Ob(rule, key, file, line, where, True, "INCONCLUSIVE: " + why, inconclusive=True)


class Rule:
    """A rule = a function Repo -> [Ob], a floor on the number of instances, and
    mutation generators used as positive controls / self-test."""

    def __init__(self, rid: str, fn: Callable[[Repo], List[Ob]], floor: int, doc: str,
                 mutants: Optional[Callable[[Repo], List["Mutant"]]] = None, soft: bool = False):
        self.id = rid
        self.fn = fn
        self.floor = floor
        self.doc = doc
        self.mutants = mutants
        # soft: a shape rule over the inside of an anchored function.  If it cannot recognise the
        # mechanism at all it reports INCONCLUSIVE instead of failing the run.
        self.soft = soft

    def run(self, repo: Repo) -> List[Ob]:
        try:
            obs = self.fn(repo)
        except AnalysisError as e:
            if not self.soft:
                raise
            obs = [inconclusive(self.id, f"{self.id}::unrecognised", "", 0, "", f"mechanism not recognised: {e}")]
        except RecursionError:
            raise
        except Exception as e:
            # a shape the rule's own code does not cope with (e.g. an empty function body, a missing return): this is a limit
            # of the analysis, not a fact about the analysed code -- reported as inconclusive with the place of the failure
            tb = traceback.extract_tb(e.__traceback__)[-1]
            obs = [inconclusive(self.id, f"{self.id}::analysis-limit", "", 0, "",
                                f"rule could not analyse this tree ({type(e).__name__}: {str(e)[:120]} at {os.path.basename(tb.filename)}:{tb.lineno})")]
        for o in obs:
            if not o.rule:
                o.rule = self.id
        return obs


class Mutant:
    """A variant of the tree (relpath -> new source).  expect='fire': the rule must
    report a violation whose key contains `expect_key`; expect='silent': the rule
    must report no violation that is not already present on the unmutated tree."""

    def __init__(self, name: str, overrides: Dict[str, str], expect: str, expect_key: str = "",
                 control: bool = False, note: str = ""):
        self.name = name
        self.overrides = overrides
        self.expect = expect
        self.expect_key = expect_key
        self.control = control
        self.note = note


# ------------------------------------------------------------------ mutation helpers
def mutate_module(repo: Repo, relpath: str, transform: Callable[[ast.Module], bool]) -> Optional[Dict[str, str]]:
    """Apply `transform` to a deep copy of the module tree; transform returns True if
    it changed something.  Returns overrides or None."""
    m = repo.module(relpath)
    tree = ast.parse(m.source)
    for node in ast.walk(tree):
        for child in ast.iter_child_nodes(node):
            child._parent = node
    if not transform(tree):
        return None
    ast.fix_missing_locations(tree)
    for node in ast.walk(tree):
        if hasattr(node, "_parent"):
            try:
                del node._parent
            except AttributeError:
                pass
    return {relpath: ast.unparse(tree)}


def find_def(tree: ast.Module, qualname: str):
    parts = qualname.split(".")
    body = tree.body
    node = None
    for p in parts:
        node = None
        for st in body:
            if isinstance(st, (ast.FunctionDef, ast.AsyncFunctionDef, ast.ClassDef)) and st.name == p:
                node = st
                break
        if node is None:
            return None
        body = node.body
    return node


def find_defs(tree: ast.Module, qualname: str):
    """all defs with that qualname (singledispatch registers several `_`)."""
    parts = qualname.split(".")
    scopes = [tree.body]
    nodes = []
    for i, p in enumerate(parts):
        nodes = []
        for body in scopes:
            for st in body:
                if isinstance(st, (ast.FunctionDef, ast.AsyncFunctionDef, ast.ClassDef)) and st.name == p:
                    nodes.append(st)
        scopes = [n.body for n in nodes]
    return nodes


def replace_node(root, old, new) -> bool:
    for node in ast.walk(root):
        for field, value in ast.iter_fields(node):
            if value is old:
                setattr(node, field, new)
                return True
            if isinstance(value, list):
                for i, v in enumerate(value):
                    if v is old:
                        if new is None:
                            del value[i]
                            if not value and field == "body":
                                value.append(ast.Pass())
                        elif isinstance(new, list):
                            value[i:i + 1] = new
                        else:
                            value[i] = new
                        return True
    return False


def remove_stmt(root, stmt) -> bool:
    return replace_node(root, stmt, None)


def text_mutant(repo: Repo, relpath: str, old: str, new: str, count: int = 1) -> Optional[Dict[str, str]]:
    """Textual replacement on the *normalised* (ast.unparse) form of a module: robust to
    formatting of the original file.  Only used by self-tests, never by a deciding rule."""
    if relpath.endswith(".py"):
        m = repo.module(relpath)
        norm = ast.unparse(ast.parse(m.source))     # the raw (not canonicalised) tree: variant texts are written against it
    else:
        norm = repo.text(relpath)
    if old not in norm:
        return None
    return {relpath: norm.replace(old, new, count)}


# ------------------------------------------------------------------ known findings
def load_known() -> Dict:
    p = os.path.join(VERIF, "known_findings.json")
    if not os.path.exists(p):
        return {"known": [], "fixed": []}
    with open(p) as f:
        return json.load(f)


# ------------------------------------------------------------------ run one property
class Result:
    def __init__(self):
        self.obs: List[Ob] = []
        self.errors: List[str] = []
        self.rule_stats: Dict[str, Dict] = {}
        self.control_log: List[Dict] = []
        self.selftest = {"mutants": 0, "fired_as_expected": 0, "silent_as_expected": 0, "failures": []}


def violation_keys(obs: List[Ob]):
    return {o.full_key() for o in obs if not o.ok}


def run_rules(repo: Repo, rules: List[Rule], res: Optional[Result] = None, check_floor=True) -> List[Ob]:
    all_obs = []
    for r in rules:
        obs = r.run(repo)
        n = len([o for o in obs if not o.trivial])
        if res is not None:
            res.rule_stats[r.id] = {"instances": len(obs), "nontrivial": n, "floor": r.floor,
                                    "violations": len([o for o in obs if not o.ok]), "doc": r.doc}
        if check_floor and len(obs) < r.floor and not any(o.inconclusive for o in obs):
            raise AnalysisError(f"rule {r.id}: {len(obs)} instance(s) found, floor is {r.floor} "
                                f"(anchor vanished or discovery broken)")
        all_obs += obs
    return all_obs


def run_mutants(repo: Repo, rules: List[Rule], res: Result, base_viol: set, only_controls: bool, jobs: int = 1):
    tasks = []
    for r in rules:
        if r.mutants is None:
            continue
        try:
            ms = r.mutants(repo)
        except Exception as e:
            # the variant generators are self-test code: when they cannot cope with the shape of the tree this is a
            # fact about the self-test (recorded as a warning), never a verdict or an analysis error about the code
            res.selftest["failures"].append({"rule": r.id, "mutant": "<generator>", "expect": "fire", "ok": False,
                                             "detail": f"variant generator failed on this tree: {type(e).__name__}: {e}"})
            continue
        have_control = False
        for m in ms:
            if only_controls and not m.control:
                continue
            have_control = have_control or m.control
            tasks.append((r, m))
        if not any(m.control for m in ms) and r.mutants is not None:
            # the tree has a shape the control generator does not recognise: a fact about the
            # self-test, recorded as a warning -- never an alarm about the analysed code
            res.selftest["failures"].append({"rule": r.id, "mutant": "<control>", "expect": "fire", "ok": False,
                                             "detail": "no positive control could be constructed on this tree"})
    results = []
    if jobs > 1 and len(tasks) > 4:
        import multiprocessing as mp
        ctx = mp.get_context("fork")
        global _FORK_STATE
        _FORK_STATE = (repo, tasks, base_viol)
        with ctx.Pool(jobs) as pool:
            results = pool.map(_run_one_mutant_idx, range(len(tasks)), chunksize=1)
    else:
        for r, m in tasks:
            results.append(_run_one_mutant(repo, r, m, base_viol))
    for (r, m), (ok, detail) in zip(tasks, results):
        res.selftest["mutants"] += 1
        entry = {"rule": r.id, "mutant": m.name, "expect": m.expect, "ok": ok, "detail": detail}
        if m.control:
            res.control_log.append(entry)
        if ok:
            res.selftest["fired_as_expected" if m.expect == "fire" else "silent_as_expected"] += 1
        else:
            res.selftest["failures"].append(entry)


_FORK_STATE = None


def _run_one_mutant_idx(i):
    repo, tasks, base_viol = _FORK_STATE
    r, m = tasks[i]
    return _run_one_mutant(repo, r, m, base_viol)


def _run_one_mutant(repo: Repo, r: Rule, m: Mutant, base_viol: set):
    try:
        variant = Repo(repo.root, overrides={**repo.overrides, **m.overrides})
        obs = r.run(variant)
    except AnalysisError as e:
        if m.expect == "fire":
            # a mutation that makes the anchor vanish is *detected*, but not as a violation
            return False, f"analysis error instead of violation: {e}"
        return False, f"analysis error on benign variant: {e}"
    except Exception as e:  # pragma: no cover
        return False, "crash: " + "".join(traceback.format_exception_only(type(e), e)).strip()
    new = {o.full_key() for o in obs if not o.ok} - base_viol
    if m.expect == "fire":
        hit = [k for k in new if m.expect_key in k]
        if hit:
            return True, hit[0]
        return False, f"not reported (new violations: {sorted(new)[:3]})"
    else:
        if not new:
            return True, "silent"
        return False, f"spurious: {sorted(new)[:3]}"


def write_evidence(prop: str, tier: str, seed: int, res: Result, repo: Optional[Repo], wall: float,
                   explanation: str, rule_text: str, known_matched: List[str], unknown: List[Ob],
                   assumptions: List[str], status: str):
    os.makedirs(os.path.join(VERIF, "evidence"), exist_ok=True)
    obs = res.obs
    nontrivial = {o.full_key() for o in obs if not o.trivial}
    samples = [o.as_dict() for o in obs[:6]]
    bad = [o.as_dict() for o in obs if not o.ok]
    # make sure samples show each rule at least once
    seen_rules = {s["rule"] for s in samples}
    for o in obs:
        if o.rule not in seen_rules:
            samples.append(o.as_dict())
            seen_rules.add(o.rule)
    cov = {
        "explanation": explanation,
        "evaluations": max(len(obs), 0),
        "distinct_nontrivial": len(nontrivial),
        "rule": rule_text,
        "samples": samples + [b for b in bad if b not in samples],
        "obligations": len(obs),
        "discharged": len([o for o in obs if o.ok and not o.inconclusive]),
        "inconclusive": [o.as_dict() for o in obs if o.inconclusive],
        "exhaustive": True,
        "rules": res.rule_stats,
        "units_parsed": len(repo.modules) if repo else 0,
        "functions_indexed": len(repo.functions) if repo else 0,
        "classes_indexed": len(repo.classes) if repo else 0,
        "positive_controls": res.control_log,
        "selftest": {k: v for k, v in res.selftest.items() if k != "failures"} | {
            "failures": res.selftest["failures"][:20]},
        "known_findings_matched": known_matched,
        "unlisted_violations": [o.as_dict() for o in unknown],
        "analysis_errors": res.errors,
        "status": status,
        "repo_root": repo.root if repo else None,
    }
    ev = {
        "property_id": prop,
        "tier": tier,
        "seed": seed,
        "level": "other",
        "coverage": cov,
        "assumptions": assumptions,
        "wall_s": round(wall, 3),
        "violations": len(unknown),
    }
    path = os.path.join(VERIF, "evidence", f"{prop}.json")
    tmp = path + ".tmp"
    with open(tmp, "w") as f:
        json.dump(ev, f, indent=1, sort_keys=False, default=str)
    os.replace(tmp, path)
    return path
