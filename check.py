#!/usr/bin/env python3
"""Static checks for probing-lab/polar.

usage: python3 check.py <Cxx> [--tier quick|thorough] [--replay FILE] [--list]

Decides the structural clauses of one property (DESIGN.md section 4) by analysing
the *source* of /repo (or $POLAR_ROOT) with the rule families in polarlint/.
Nothing of Polar is imported or executed.

exit 0  all obligations hold (or only findings listed in known_findings.json)
exit 1  + line `VIOLATION property=<id> replay=<path>` : an unlisted violation
exit 2  + line `ANALYSIS-ERROR ...` : the checker could not do its job (anchor vanished, crash)
"""
import argparse
import json
import os
import re
import sys
import time
import traceback

HERE = os.path.dirname(os.path.abspath(__file__))
sys.path.insert(0, HERE)

from polarlint.model import Repo, AnalysisError  # noqa: E402
from polarlint.core import Ob, Rule, Result, run_rules, run_mutants, violation_keys, write_evidence, load_known  # noqa: E402
from polarlint.rules import conformance, libcontract, state, splice, pipeline, validate, flow, bayes, mechanisms, formulas, lattice, discipline, stats, sensitivity, solvers  # noqa: E402

R = {}
for mod in (conformance, libcontract, state, splice, pipeline, validate, flow, bayes, mechanisms, formulas, lattice, discipline, stats, sensitivity, solvers):
    for k, v in mod.RULES.items():
        if k in R:
            raise SystemExit(f"duplicate rule id {k}")
        R[k] = v


class Spec:
    def __init__(self, rid, include=None, thorough_only=False):
        self.rule = R[rid]
        self.rid = rid
        self.include = re.compile(include) if include else None
        self.thorough_only = thorough_only


def S(rid, include=None, thorough_only=False):
    return Spec(rid, include, thorough_only)


PROPERTIES = {
    "C01": dict(
        specs=[S("FLAGS"), S("LOSSY"), S("SOLVERFLAG"), S("ACTIONS"),
               # necessary conditions shared with C02 / C03 / C19: the pipeline the closed forms come out of
               S("ORDER"), S("A2"), S("CONSTANTS"), S("REBUILD"), S("MEMO"), S("IFFLAT"), S("MULTIASSIGN"), S("DISTREWRITE"), S("SECTIONTABLES"),
               S("D1"), S("A1-cond"), S("A4M"), S("FRESHCTX"), S("SOLVERSCOPE"), S("LOSTUPDATE"),
               S("SPLICE", r"inputparser/|program/"), S("GRAMMAR"), S("PARSER")],
        clause="(i) exactness-flag plumbing: every approximating call clears, and every combiner forwards, the flag that print_is_exact reports; "
               "(ii) pipeline order: a parsed program reaches the recurrence builders only through normalize_program. "
               "NOT decided: that any closed form equals the expectation (value-level)."),
    "C02": dict(
        specs=[S("ORDER"), S("A2"), S("CONSTANTS"), S("REBUILD"), S("MEMO"), S("SPLICE", r"program/transformer/|program/distribution/"), S("FLAG"),
               S("IFFLAT"), S("MULTIASSIGN"), S("DISTREWRITE"), S("COND2ARITHM"), S("SECTIONTABLES"), S("MARKLAST"), S("LOSTUPDATE"), S("DEPSOURCES")],
        clause="typestate of the 10-pass pipeline on all settings paths; write-back of substitutions in all subs implementations; constant folding guarded by a "
               "free-symbol test; section rebuilders keep every assignment; memo invalidation; parenthesised location/scale templates. "
               "NOT decided: semantic equivalence of the if-flattening / alias rewrites."),
    "C03": dict(
        specs=[S("D1"), S("A1-cond"), S("A4M"), S("FRESHCTX"), S("INDICATOR"), S("VOCAB", r"get_const_moment|get_support|dispatch"), S("TRANSFORMTERM"), S("MGF"), S("FUNCPLACEHOLDER")],
        clause="indicator polynomials of And/Or/Not/True/False equal their boolean meaning on all rows; composite conditions recurse into every child; the three "
               "get_moment bodies share the guarded-assignment shape. NOT decided: Atom's Lagrange indicator, power reduction, closure, coefficients."),
    "C04": dict(
        specs=[S("ANSATZ"), S("FIT"), S("GEOMSUM"), S("SPECIALCASES"), S("VALIDFROM"), S("OPTRESOLVE"), S("SOLVERDISPATCH"), S("ROOTS"), S("SOLVERFLAG"), S("LOSSY", r"utils/expressions.py"), S("EXCEPT", r"get_all_roots"), S("MEMOKEY")],
        clause="the general solution of the characteristic-root solver has the m terms C*n**i*r**n (i < m) for every non-zero root of multiplicity m; its constants are fitted on (ansatz at n, n-th iterate) pairs "
               "taken from max(1, multiplicity of the root 0) on (the ansatz leaves the root 0 out); the summation solver is the geometric-sum identity x(n) = c**(n-s) x(s) + sum_{k=s}^{n-1} c**(n-k-1) f(k) "
               "(exponents, bounds and start index compared as rational functions) and is chosen only for acyclic systems; every root source is complete (all_roots / intervals(all=True) on square-free factors with the "
               "factor's multiplicity / roots() only below degree 5) and an approximated root clears the exactness flag that both solvers forward. "
               "NOT decided: that a closed form equals A^n v (values), the number of listed special cases, agreement of the two strategies.",
        technique="role-based shape analysis of the two solvers: loop-nest recognition of the ansatz, pairing and lower bound of the fit equations (alias resolution, comparison as rational functions), "
                  "exponent / bound identities of the geometric sum, CFG control dependence of the solver choice, library-contract check of the root sources, def-use of the exactness flag"),
    "C05": dict(
        specs=[S("ENUM"), S("TYPER"), S("TYPERFIX"), S("SUPPORT"), S("SUPPORTKIND"), S("IMPLIED"), S("MARKLAST"), S("GUARD"), S("LRUMUT"), S("QUANT", r"finite_fixed_point_typer|finite.py")],
        clause="discrete supports enumerate the values the moment/sampler sides use; intervals are refused; only non-failed numeric sets become types; the start state "
               "covers the whole initial block; defaults are included unless the condition is implied by the guard; implied-by-guard answers are sound. "
               "NOT decided: that the fixed point covers all reachable values."),
    "C06": dict(
        specs=[S("NULLSPACE"), S("ABSTRACT"), S("GROEBNER"), S("RATLATTICE"), S("INVINPUTS"), S("ALIAS"), S("TRIVIAL"), S("DEADGUARD"), S("PARITYROW"), S("ROWINTACT"), S("SOLVERSCOPE"), S("GETORCREATE"), S("EXPSPLIT"), S("KERNELCOLS")],
        clause="no truncation of a rational kernel on the way to exponent vectors; exponentials are abstracted only behind raising checks; the eliminated symbols are "
               "exactly the lex prefix that is filtered. NOT decided: that reported polynomials vanish on the sequences."),
    "C07": dict(
        specs=[S("GROEBNER"), S("INVINPUTS", r"invariant_ideal"), S("RATLATTICE"), S("KAUERS"), S("ALIAS"), S("TRIVIAL"), S("DEADGUARD"), S("NORMDIM"), S("MAHLER"), S("PARITYROW"), S("QUANT", r"exponent_lattice"), S("ROWINTACT"), S("GETORCREATE"), S("EXPSPLIT"), S("KERNELCOLS")],
        clause="both groebner() calls compute elimination ideals (generator prefix == filtered symbols, lex order). NOT decided: completeness of the exponent lattice."),
    "C08": dict(
        specs=[S("A1-dist"), S("A2", r"program/distribution/"), S("SAMPLERS"), S("ENUM"), S("FLOAT", r"float_to_rational|distribution"), S("CFMGF"), S("DISTREWRITE"), S("SUPPORTKIND"), S("MOMENTS"), S("MGFDOMAIN"), S("STATE", r"program/distribution|classmutable|modstate"), S("LRU", r"program/distribution"),
               S("SPLICE", r"program/transformer/dist_transformer|program/distribution/")],
        clause="every parameter field is consulted by subs/free symbols/sampler/printer/moment/cf/mgf; scipy sampler arguments denote the moment side's law; discrete "
               "enumerations agree; float parameters become exact rationals; cf(t) == mgf(i t) as rational functions. NOT decided: any moment formula."),
    "C09": dict(
        specs=[S("GUARD"), S("ORIGGUARD"), S("AFTERLOOP"), S("IMPLIED"), S("MARKLAST"), S("STATE", r"cli/common|program/condition|classmutable")],
        clause="only the source guard is marked as guard; the termination indicator derives from the source guard; after-loop arms condition on termination and take the "
               "limit; the conditional moment is a ratio over one negated-guard indicator. NOT decided: limits, divergence."),
    "C10": dict(
        specs=[S("PRODUCTRULE"), S("DIFFPARAM"), S("DEPCLOSURE"), S("ACTIONS", r"[Ss]ensitivity"), S("STATE", r"sensitivity|diff_rec_builder|classmutable|modstate|closure::|default::"), S("LRU", r"diff_rec_builder|sensitivity")],
        clause="the emulated differentiation of a recurrence summand c*m is the product rule in every dependence case (c'*m + c*m*delta / c'*m / c*m*delta / nothing), decided by enumerating the paths "
               "of the case analysis and comparing the collected terms as rational functions; parameter dependence of variables is closed transitively over both sections; initial values and closed forms "
               "are differentiated with respect to the validated parameter symbol and the reported solution is that of the marked monomial; the sensitivity action analyses the normalised program. "
               "NOT decided: that either method equals the derivative of the exact moment (values), agreement of the two methods, diff-defectiveness classification.",
        technique="path enumeration over the case analysis of DiffRecBuilder.get_recurrence with the dependence tests as boolean atoms, exact rational-function comparison of the collected summands with the product rule, "
                  "fixed-point-loop shape analysis of the dependence closure, def-use of the differentiation variable, CFG typestate of the sensitivity action"),
    "C11": dict(
        specs=[S("TAILBOUNDS"), S("KINDCONV"), S("CONVERSIONS"), S("CORNISHFISHER"), S("AFTERLOOP", r"cumulant|central|tail_bound|get_all_cumulants"), S("INVINPUTS", r"identifier"),
               S("STATE", r"expansions/|utils/statistics|utils/special_polys|cli/common|cli/actions|closure::|classmutable|modstate|default::"), S("LRU", r"expansions/|utils/"), S("SOLVERSCOPE"), S("GRAMCHARLIER")],
        clause="the raw->cumulant recursion, the raw->central binomial sum and comb(n,k) are the textbook formulas (identities of rational functions over the source expressions, loop ranges included); "
               "Markov bounds are E(M**k)/a**k for every requested order and the lower bound is (m1-a)**2/(m2-2*a*m1+a**2); cumulant / central goals use their own conversion, report the entry of the goal's "
               "order and request the raw moments up to it; their after-loop arms condition on termination and take the limit; goal kinds are stored under their own identifiers. "
               "NOT decided: the Gram-Charlier / Cornish-Fisher expansions and the Bell / Hermite polynomials, validity of the bounds' assumptions, any reported value.",
        technique="source-level identities: the summands, start values and ranges of the conversion loops and the bound formulas are normalised to exact rational functions over named atoms (integer exponents distribute) "
                  "and compared with the textbook forms; role-based discovery (dict parameter, result table, loop indices); CFG control dependence of the after-loop arms"),
    "C12": dict(
        specs=[S("D2"), S("D1"), S("SAMPLERS"), S("ENUM"), S("SIMULATOR"), S("VOCAB", r"evaluate_right_side|literal")],
        clause="operator tables of analysis and simulator agree; boolean evaluation equals the indicator; samplers use the moment side's parameter convention and "
               "value enumeration; simulator dispatch / first-match branching / guard stuttering / guarded assignment have the assumed shape. "
               "NOT decided: the distribution of simulated states."),
    "C13": dict(
        specs=[S("MGF"), S("VOCAB"), S("A1-assign", r"FunctionalAssignment|DistAssignment"), S("TRANSFORMTERM"), S("SECTIONTABLES"), S("FRESHCTX"), S("MGFDOMAIN"), S("STATE", r"program/assignment|classmutable|modstate"), S("LRU", r"program/assignment|program/distribution"), S("CFMGF"), S("A1-dist", r"\.mgf|\.cf|mgf_exists_at"), S("FUNCPLACEHOLDER")],
        clause="mgf is used only behind a raising existence test at the order used; function-name literals are in the grammar vocabulary, dispatchers are total, trig/exp "
               "mixing is refused; rounding happens in one funnel. NOT decided: the transform formulas."),
    "C15": dict(
        specs=[S("CPT"), S("CODEGEN"), S("SPLICE", r"bayesnet/"), S("SANITISER"), S("STATE"), S("SOLVERSCOPE")],
        clause="CPT rows are written only after the row-sum check, in default->table->entries order with a final completeness check; generated code is in topological "
               "order, numbers values by domain position of their own variable; names are sanitised to grammar atoms. NOT decided: numeric query answers."),
    "C16": dict(
        specs=[S("NULLSPACE"), S("KAUERS"), S("RATLATTICE"), S("ALIAS"), S("TRIVIAL"), S("NORMDIM"), S("MAHLER"), S("PARITYROW"), S("QUANT", r"exponent_lattice"), S("KERNELCOLS")],
        clause="the rational kernel is not truncated to integers; the LLL loop returns only what passed the exact membership test. NOT decided: independence, completeness."),
    "C17": dict(
        specs=[S("SETTINGS-W"), S("SETTINGS-C"), S("ROOTS"), S("LOSSY", r"utils/expressions.py"), S("SOLVERFLAG"), S("REBUILD"), S("PARSER", r"_transform_categorical"),
               S("ORDER", r"cond2arithm=True"), S("COND2ARITHM"), S("FLAGS"), S("TYPERFIX"), S("TYPER"), S("OPTRESOLVE"), S("MEMOKEY"), S("RESOLVE"), S("ARITY")],
        clause="options are written only by the CLI setter and read at call time; settings<->options<->setter census; every root source is complete and approximations clear "
               "the flag; cond2arithm keeps every assignment; categorical expansion keeps index/value/probability aligned. NOT decided: equality of closed forms across settings."),
    "C18": dict(
        specs=[S("EXCEPT"), S("FALLTHROUGH"), S("QUANT"), S("REBUILD"), S("COND2ARITHM"), S("SECTIONTABLES"), S("SUPPORT", r"get_free_symbols"), S("LOSTUPDATE"), S("DEPSOURCES"), S("VOCAB", r"dispatch|mixing"), S("D2"), S("ABSTRACT"), S("MGF"), S("RESOLVE"), S("ARITY"), S("EDGEMAX"), S("ORDER")],
        clause="the safety half only (`whatever Polar refuses, it refuses with an error; a refusal never takes the form of a wrong or partial result`): no exception handler swallows an exception "
               "(each re-raises on every path or is a reviewed complete fallback); no function returns a value on some paths and ends without one on others unless its callers test for the missing value; "
               "section rebuilders and cond2arithm raise for what they cannot convert instead of dropping it; dispatchers on operators / function names are total or end in raise; exponentials and mgf uses sit behind raising checks. "
               "NOT decided: the liveness half (that every loop within the documented restrictions is accepted and yields a closed form).",
        technique="error-discipline analysis: census and path classification of all exception handlers, CFG exit analysis of every value-returning function (implicit None) with call-site awareness, "
                  "loop-path exhaustiveness of rebuilders, dispatcher totality, dominance of raising validators"),
    "C19": dict(
        specs=[S("SPLICE", r"inputparser/"), S("GRAMMAR"), S("PARSER"), S("FLOAT")],
        clause="parser templates are precedence-safe; arithmetic is re-stringified token by token; probability vectors and assigned names are validated; floats become "
               "exact rationals; simultaneous assignment puts all temporaries first. NOT decided: equality of the analyses of two spellings."),
    "C20": dict(
        specs=[S("SETTINGS-W"), S("STATE"), S("RANDOM"), S("LRU"), S("FLAG"), S("SETORDER"), S("SOLVERSCOPE"), S("FRESHCTX"), S("LRUMUT"), S("CLIARGS"), S("INVINPUTS", r"aligned"), S("MEMOKEY"), S("GETORCREATE")],
        clause="inventory of process-global mutable state equals the reviewed table; settings are not written outside the setter (except scoped overrides); memoised "
               "callables read nothing the analysis phase mutates; order-sensitive consumers of sets equal the reviewed table; randomness only in the simulator; the class flag is refreshed by every normalisation. "
               "NOT decided: equality of results across histories / hash seeds."),
}

# clause / technique texts as of the last hardening pass (override the shorter texts above; MANIFEST.json is generated from them)
CLAUSES = {'C01': '(i) exactness-flag plumbing: every approximating call clears, and every combiner forwards, the flag that print_is_exact reports (a flag overwritten per loop ite'
        'm counts as dropped); (ii) pipeline order: a parsed program reaches the recurrence builders only through normalize_program; (iii) the necessary conditions share'
        'd with C02 (normalisation mechanisms), C03 (indicator tables, guarded-assignment moment shape, fresh builder context) and C19 (parser templates, probability val'
        'idation, simultaneous assignment). NOT decided: that any closed form equals the expectation (value-level; the solver defect F18 was found by probing, not by a r'
        'ule).',
 'C02': 'typestate of the 10-pass pipeline on all settings paths; write-back of substitutions in all subs implementations; constant folding guarded by a free-symbol test'
        ' and a single initial assignment; section rebuilders keep every assignment; memo/alias stores are invalidated on every reassignment; if-flattening saves every c'
        'ondition variable and accumulates negations; single-assignment renaming falls back to the previous version; location/scale rewriting preserves the law (rational'
        '-function identity); per-section tables. NOT decided: semantic equivalence of the rewrites as a whole.',
 'C03': 'indicator polynomials of And/Or/Not/True/False equal their boolean meaning on all rows; composite conditions recurse into every child; the three get_moment bodi'
        'es share the guarded-assignment shape (branch i pairs probabilities[i] with polynomials[i]**k); Atom.to_arithm is the Lagrange product with the outside-type cas'
        'e; power reduction cases are guarded by facts that imply them; the Vandermonde system is oriented consistently; every backward substitution starts from a fresh '
        'context. mgf uses are dominated by a raising existence test at the order used; the ordered value tuple of a finite type holds the values themselves. The postpon'
        'ed value of a functional assignment has a symbol of its own. NOT decided: closure of the system, coefficients.',
 'C04': 'the general solution of the characteristic-root solver has the m terms C*n**i*r**n (i < m) for every non-zero root of multiplicity m; its constants are fitted o'
        'n (ansatz at n, n-th iterate) pairs taken from max(1, multiplicity of the root 0) on (the ansatz leaves the root 0 out); the summation solver is the geometric-s'
        'um identity x(n) = c**(n-s) x(s) + sum_{k=s}^{n-1} c**(n-k-1) f(k) (exponents, bounds and start index compared as rational functions) and is chosen only for acy'
        "clic systems; every root source is complete (all_roots / intervals(all=True) on square-free factors with the factor's multiplicity / roots() only below degree 5"
        ') and an approximated root clears the exactness flag that both solvers forward. Hand-written memo tables are keyed by every option / parameter the cached root c'
        'omputation receives. NOT decided: that a closed form equals A^n v (values), the number of listed special cases, agreement of the two strategies.',
 'C05': 'discrete supports enumerate the values the moment/sampler sides use; intervals are refused; only non-failed numeric sets become types; the start state covers th'
        'e whole initial block; the default is in the value set whenever it is another variable (truth table over the guard tests); implied-by-guard answers are sound; n'
        'o memoised support set is extended by a caller. The symbols read before assignment accumulate over the statements of the body; no sweep clears has_changed after'
        ' the updates of the same pass. NOT decided: that the fixed point covers all reachable values.',
 'C06': 'no truncation of a rational kernel on the way to exponent vectors (the integer kernel uses integer row operations only); one multiplicity row per factor (no sha'
        'red row object); exponentials are abstracted only behind raising checks; bases and abstraction symbols stay aligned; the eliminated symbols are exactly the lex '
        'prefix that is filtered; the saturation through inverse symbols is reachable; goal closed forms are stored under the identifier of their own kind. Lattice vecto'
        'rs are turned into binomials unscaled; base**(C*n) is read as (base**C)**n; the integer-kernel elimination covers the whole left block; an inverse symbol is cre'
        'ated once per symbol; solver tables live as long as their program. NOT decided: that reported polynomials vanish on the sequences.',
 'C07': 'both groebner() calls compute elimination ideals (generator prefix == filtered symbols, lex order); the trivial-lattice shortcut is entered only for all-rationa'
        'l bases; the saturation of the lattice ideal is reachable; the Gram-Schmidt norm is compared with the Faccin bound in the same dimension; the LLL loop returns o'
        'nly what passed the exact membership test. Lattice vectors are turned into binomials unscaled; base**(C*n) is read as (base**C)**n; the integer-kernel eliminati'
        'on covers the whole left block; an inverse symbol is created once per symbol. NOT decided: completeness of the exponent lattice.',
 'C08': "every parameter field is consulted by subs/free symbols/sampler/printer/moment/cf/mgf; scipy sampler arguments denote the moment side's law; discrete enumeratio"
        'ns agree; float parameters become exact rationals; cf(t) == mgf(i t) as rational functions. Holes of the draw-rewriting templates are parenthesised or atomic. N'
        'OT decided: any moment formula.',
 'C09': 'only the source guard is marked as guard; the termination indicator derives from the source guard; after-loop arms condition on termination and take the limit; '
        'the conditional moment is a ratio over one negated-guard indicator. The limit n->oo is taken of the combined quantity (cumulant / central moment), not of raw mo'
        'ments before combination; the limit helper maps over every container kind it is handed. NOT decided: limits, divergence.',
 'C11': 'the raw->cumulant recursion, the raw->central binomial sum and comb(n,k) are the textbook formulas (identities of rational functions over the source expressions'
        ', loop ranges included); Markov bounds are E(M**k)/a**k for every requested order and the lower bound is (m1-a)**2/(m2-2*a*m1+a**2); cumulant / central goals us'
        "e their own conversion, report the entry of the goal's order and request the raw moments up to it; their after-loop arms condition on termination and take the l"
        'imit; goal kinds are stored under their own identifiers. The limit n->oo is taken after raw moments were combined; tail-bound lists are mapped over by the limit'
        ' helper. Gram-Charlier coefficients are complete Bell polynomials of the cumulants. NOT decided: the Gram-Charlier / Cornish-Fisher expansions and the Bell / He'
        "rmite polynomials, validity of the bounds' assumptions, any reported value.",
 'C12': "operator tables of analysis and simulator agree; boolean evaluation equals the indicator; samplers use the moment side's parameter convention and value enumerat"
        'ion; simulator dispatch / first-match branching / guard stuttering / guarded assignment have the assumed shape. The sampler of a categorical keeps one weight pe'
        'r category; what decides whether the loop body runs is not carried over from the previous sample run. NOT decided: the distribution of simulated states.',
 'C13': "mgf is used only behind a raising existence test at the order used, and the test encodes the family's domain; function-name literals are in the grammar vocabula"
        'ry, dispatchers (if-chain or table) are total, trig/exp mixing is refused; the transform enters differentiated identity-power times, a raw moment standing in fo'
        'r the derivative at 0 carries I**a (cf) / no unit (mgf); rounding happens in one funnel; no process-wide store of functional moments outlives the exact/rounded '
        'mode. The postponed value of a functional assignment is represented by a symbol different from the assigned variable; the tables of unconditioned facts are purg'
        'ed on every re-assignment and record a copy of a draw as a reference, not as a draw. NOT decided: the transform formulas.',
 'C15': 'CPT rows are written only after the row-sum check, in default->table->entries order with a final completeness check; generated code is in topological order, num'
        'bers values by domain position of their own variable; names are sanitised to grammar atoms. Sanitised names that the CAS reads as constants are altered. NOT dec'
        'ided: numeric query answers.',
 'C16': 'the rational kernel is not truncated to integers; one row per factor; the trivial-lattice shortcut needs all bases rational and pairwise coprimality; norm and b'
        'ound are compared in the same dimension; the LLL loop returns only what passed the exact membership test. The integer-kernel elimination covers the whole left b'
        'lock (build width = elimination range = cut offset). NOT decided: independence, completeness.',
 'C17': 'options are written only by the CLI setter and read at call time; settings<->options<->setter census; every root source is complete and approximations clear the'
        ' flag; cond2arithm keeps every assignment; categorical expansion keeps index/value/probability aligned. Hand-written memo tables that outlive a call are keyed b'
        'y every strategy option their value is computed with; methods called on freshly constructed repository objects exist (code behind non-default options); a transl'
        'ation that yields several statements is spliced, not appended. Calls that resolve to one repository function fit its signature. NOT decided: equality of closed '
        'forms across settings.',
 'C18': 'the safety half only (`whatever Polar refuses, it refuses with an error; a refusal never takes the form of a wrong or partial result`): no exception handler swa'
        'llows an exception (each re-raises on every path or is a reviewed complete fallback); no function returns a value on some paths and ends without one on others u'
        'nless its callers test for the missing value; section rebuilders and cond2arithm raise for what they cannot convert instead of dropping it; dispatchers on opera'
        'tors / function names are total or end in raise; exponentials and mgf uses sit behind raising checks. A method called on a freshly constructed repository object'
        ' is defined in its class hierarchy (an AttributeError is not a refusal). The dependency graph keeps the strongest kind registered for an edge; the pass order le'
        'aves complete program information; calls fit the signatures they resolve to. NOT decided: the liveness half (that every loop within the documented restrictions '
        'is accepted and yields a closed form).',
 'C19': 'parser templates are precedence-safe; arithmetic is re-stringified token by token by the transformer Lark is built with; probability vectors (all constants, als'
        'o after a symbolic one) and assigned names are validated; every float occurring in a coefficient / probability / parameter becomes the rational of its decimal t'
        'ext (depth of the conversion is classified); simultaneous assignment writes no target before all right-hand sides are in temporaries. NOT decided: equality of t'
        'he analyses of two spellings.',
 'C20': 'inventory of process-global mutable state equals the reviewed table; settings are not written outside the setter (except scoped try/finally overrides); the pars'
        'ed command line is never written by an action; memoised callables read nothing the analysis phase mutates and hand no mutable container to a caller that writes '
        'into it; order-sensitive consumers of sets are reviewed (violation only with evidence of seed-dependent element hashes); randomness only in the simulator; the c'
        'lass flag is refreshed by every normalisation; solver tables and builder contexts are per program. Hand-written memo tables on shared objects are keyed by every'
        ' option they depend on. Get-or-create methods create a fresh name only when the table has none. NOT decided: equality of results across histories / hash seeds.'}
TECHNIQUES = {'C01': 'static dataflow of exactness flags (def-use closure over (value, is_exact) pairs, definitions reaching each return), lossy-call census, CFG typestate parse->nor'
        'malize->consume over CLI actions; plus the rules of C02/C03/C19 as shared necessary conditions',
 'C02': 'typestate over normalize_program (derived pass requirements/effects on all settings paths), write-back analysis of subs methods, CFG control dependence of const'
        'ant folding, loop-path exhaustiveness of rebuilders, interprocedural memo-filter analysis, mechanism shape rules with exact rational-function comparison of rewr'
        'iting templates, f-string template hygiene',
 'C03': 'finite truth tables of evaluate/to_arithm over two-point domains (finite-domain evaluation of method bodies), recursion completeness of composite conditions, si'
        'bling comparison of get_moment bodies, source-level rational-function identities (Lagrange factor), canonical comparison facts on the CFG (power reduction), hel'
        'per-following',
 'C05': 'enumeration agreement of discrete families, CFG control dependence in the typer, truth table over the atoms of the tests controlling `add(default)`, soundness t'
        'able of is_implied_by_loop_guard, memoised-mutable-result flow',
 'C06': 'def-use taint from Matrix.nullspace to integer casts, dominating raise-guards in abstract_exponentials, generator-prefix check of groebner calls, shared-object '
        '(aliasing) analysis of row tables, reachability of the saturation branch, template lead analysis of goal identifiers',
 'C07': 'generator-prefix / monomial-order check at both groebner call sites, guard-quantifier check of the trivial-lattice shortcut, dead-guard analysis, dimension anal'
        'ysis of the norm/bound comparison, loop-exit dominance of the exact membership test',
 'C08': 'field-coverage matrix over 10 distribution classes, exact rational-function comparison of scipy sampler arguments, of cf(t) vs mgf(it) and of closed-form moment'
        's vs. textbook forms, conversion-depth classification of float parameters, reviewed inventory of distribution-level state',
 'C09': 'provenance (def-use taint) of is_loop_guard and original_loop_guard stores, CFG control dependence of conditioning/limit calls on the after_loop option, shape o'
        'f the conditional-moment ratio; def-use order of limit and combination; container-kind agreement between callers and the limit helper',
 'C12': 'operator-table extraction and comparison (if-chain or dict), truth tables, sampler contracts, semantic CFG rules of the simulator (dispatch, first-match, guard '
        'stuttering, initial state per run); liveness of deciding locals across the per-sample loop; loop-path exhaustiveness of the weight list',
 'C13': 'CFG dominance of mgf uses by a raising existence test, vocabulary check of function-name literals against the grammar, dispatcher totality (if-chain or table), '
        'transform-term analysis (derivative order, unit of moment stand-ins), state inventory restricted to functional moments',
 'C15': 'CFG path analysis of CPT writers (no path avoids the row-sum guard), call-order dominance in __add_cpt__, index pairing of domain.index sites by nearest-definit'
        'ion slicing, template hygiene and sanitiser character class / uniqueness order, state inventory (cached parser objects)',
 'C16': 'def-use taint nullspace->astype(int), integer-only row operations of the kernel routine, aliasing analysis of the multiplicity table, guard-quantifier and pairw'
        'ise-gcd checks of the shortcut, dimension analysis, loop-exit dominance of the exact membership test',
 'C17': 'who-may-write analysis of the settings module, three-way census settings/options/setter, library-contract check of root sources (all=True on square-free factors'
        ', factor multiplicity), flag plumbing incl. last-item-wins, rebuilder exhaustiveness; memo-key completeness against the option names of settings.py; method reso'
        'lution on constructor-bound locals',
 'C18': 'error-discipline analysis: census and path classification of all exception handlers, CFG exit analysis of every value-returning function (implicit None) with ca'
        'll-site awareness, loop-path exhaustiveness of rebuilders, dispatcher totality, dominance of raising validators; method resolution on constructor-bound locals',
 'C19': 'template splice hygiene, grammar reader (named-terminal and join check), CFG dominance/exhaustiveness of validators before program_variables.add / PolyAssignmen'
        't construction, conversion-depth classification along helper routes, block classification of the simultaneous-assignment expansion',
 'C20': 'inventory of process-global mutable state against a reviewed table, writers of settings and of the parsed command line, memoisation purity via field read/write '
        'sets and call sites, memoised-mutable-result flow, reviewed order-sensitive set consumers with element-hash evidence, randomness census; memo-key completeness a'
        'gainst the option names of settings.py'}
for _k, _v in CLAUSES.items():
    PROPERTIES[_k]['clause'] = _v
for _k, _v in TECHNIQUES.items():
    PROPERTIES[_k]['technique'] = _v


ASSUMPTIONS = [
    "trusted base: CPython's ast parser; the documented conventions of scipy.stats (loc/scale/shape), sympy (Poly.intervals, roots, nullspace, groebner) and lark",
    "frozen tables in polarlint/rules/* (sampler contracts, pass-order reasons, reviewed global state) are reviewed knowledge; each entry is tied to a code witness",
    "a clause decided here is a necessary condition of the property, not the property itself (see 'explanation')",
]


# ------------------------------------------------------------------ kept variants (thorough tier self-test)
_KV_STATE = None


def _selected_violations(variant, specs):
    keys = set()
    for s in specs:
        obs = s.rule.run(variant)
        if s.include is not None:
            obs = [o for o in obs if s.include.search(o.key) or s.include.search(o.file)]
        keys |= {o.full_key() for o in obs if not o.ok}
    return keys


def _run_kept(i):
    repo, specs, tasks, base = _KV_STATE
    kind, vid, overrides = tasks[i]
    try:
        variant = Repo(repo.root, overrides={**repo.overrides, **overrides})
        new = _selected_violations(variant, specs) - base
    except AnalysisError as e:
        return kind, vid, False, f"analysis error: {e}"
    except Exception as e:  # pragma: no cover
        return kind, vid, False, f"crash: {type(e).__name__}: {e}"
    if kind == "seeded":
        return kind, vid, bool(new), (sorted(new)[0] if new else "not reported")
    return kind, vid, not new, ("silent" if not new else "spurious: " + sorted(new)[0])


def run_kept_variants(repo, prop, specs, res, base_all, jobs):
    """Self-test on the independently produced variants kept under /verif: the seeded changes that break *this* property
    (seeded/<prop>-k/patch.diff) must be reported by this property's rules, every behaviour-preserving refactoring
    (benign/*/patch.diff) must not be.  The patches are applied to the current sources in memory (polarlint.patch);
    a patch that no longer fits the tree is skipped and counted.  Outcomes are self-test facts (warnings), never verdicts."""
    from polarlint.patch import overrides_from_patch, PatchError
    tasks, skipped = [], []
    for kind in ("seeded", "benign"):
        base = os.path.join(HERE, kind)
        if not os.path.isdir(base):
            continue
        for vid in sorted(os.listdir(base)):
            pp = os.path.join(base, vid, "patch.diff")
            if not os.path.isfile(pp) or (kind == "seeded" and not vid.startswith(prop + "-")):
                continue
            mp = os.path.join(base, vid, "meta.json")
            if os.path.isfile(mp):
                try:
                    if json.load(open(mp)).get("retired"):
                        continue
                except Exception:
                    pass
            try:
                tasks.append((kind, vid, overrides_from_patch(repo.root, open(pp).read(), repo.overrides)))
            except PatchError as e:
                skipped.append(f"{kind}/{vid}: {e}")
    global _KV_STATE
    _KV_STATE = (repo, specs, tasks, base_all)
    out = []
    if tasks:
        import multiprocessing as mp
        with mp.get_context("fork").Pool(min(jobs, len(tasks))) as pool:
            out = pool.map(_run_kept, range(len(tasks)), chunksize=1)
    kv = {"seeded_total": 0, "seeded_reported": 0, "benign_total": 0, "benign_silent": 0, "skipped_not_applicable": skipped, "details": []}
    for kind, vid, ok, detail in out:
        kv[f"{kind}_total"] += 1
        if ok:
            kv["seeded_reported" if kind == "seeded" else "benign_silent"] += 1
        else:
            res.selftest["failures"].append({"rule": "kept-variant", "mutant": f"{kind}/{vid}", "expect": "fire" if kind == "seeded" else "silent", "ok": False, "detail": detail})
        kv["details"].append({"variant": f"{kind}/{vid}", "ok": ok, "detail": detail[:200]})
    res.selftest["kept_variants"] = kv


def main(argv=None):
    ap = argparse.ArgumentParser()
    ap.add_argument("prop", nargs="?")
    ap.add_argument("--tier", default=os.environ.get("VERIF_TIER", "quick"))
    ap.add_argument("--replay")
    ap.add_argument("--list", action="store_true")
    ap.add_argument("--root", default=None)
    ap.add_argument("--no-evidence", action="store_true")
    ap.add_argument("--strict-selftest", action="store_true", default=os.environ.get("POLARLINT_STRICT_SELFTEST") == "1")
    ap.add_argument("-v", "--verbose", action="store_true")
    args = ap.parse_args(argv)
    if args.list:
        for p, d in PROPERTIES.items():
            print(p, [s.rid for s in d["specs"]])
        return 0
    if args.replay:
        with open(args.replay) as f:
            print(f.read())
        return 0
    prop = args.prop
    if prop not in PROPERTIES:
        print(f"ANALYSIS-ERROR unknown or unclaimed property {prop}")
        return 2
    tier = args.tier if args.tier in ("quick", "thorough") else "quick"
    try:
        seed = int(os.environ.get("VERIF_SEED", "0"))
    except ValueError:
        seed = 0
    t0 = time.time()
    res = Result()
    repo = None
    spec = PROPERTIES[prop]
    status = "error"
    unknown = []
    known_matched = []
    try:
        repo = Repo(args.root)
        specs = [s for s in spec["specs"] if tier == "thorough" or not s.thorough_only]
        rules = []
        seen = set()
        for s in specs:
            if s.rid not in seen:
                seen.add(s.rid)
                rules.append(s.rule)
        all_obs = []
        base_all = set()
        for s in specs:
            obs = s.rule.run(repo)
            res.rule_stats[s.rid] = {"rule": s.rule.id, "instances": len(obs), "floor": s.rule.floor,
                                     "violations_unfiltered": len([o for o in obs if not o.ok]), "doc": s.rule.doc,
                                     "filter": s.include.pattern if s.include else None}
            # the floor (instances confirmed by reading) guards against a discovery that silently matches nothing; a tree that
            # legitimately lost a few instances (a cache dropped, two helpers merged) must not end in an analysis error, so the
            # run fails only below half of the confirmed count
            if len(obs) < max(1, s.rule.floor // 2) and not any(o.inconclusive for o in obs):
                raise AnalysisError(f"rule {s.rid} ({s.rule.id}): {len(obs)} instance(s), floor {s.rule.floor} (enforced at half): anchor vanished or discovery broken")
            base_all |= violation_keys(obs)
            if s.include is not None:
                obs = [o for o in obs if s.include.search(o.key) or s.include.search(o.file)]
                if not obs:
                    obs = [Ob(s.rule.id, f"{s.rid}::scope-empty::{s.include.pattern}", "", 0, "", True,
                              f"rule {s.rid} found no construct within the scope /{s.include.pattern}/ of this property", trivial=True)]
            res.rule_stats[s.rid]["selected"] = len(obs)
            all_obs += obs
        # de-duplicate (a rule may be listed twice with different filters)
        uniq = {}
        for o in all_obs:
            uniq.setdefault(o.full_key(), o)
        res.obs = list(uniq.values())
        # positive controls (quick) / full mutation sweep (thorough)
        jobs = min(16, os.cpu_count() or 1) if tier == "thorough" else min(8, os.cpu_count() or 1)
        run_mutants(repo, rules, res, base_all, only_controls=(tier == "quick"), jobs=jobs)
        if tier == "thorough":
            run_kept_variants(repo, prop, specs, res, base_all, jobs)
        # verdict
        known = load_known()
        listed = {(k["property"], k["key"]): k for k in known.get("known", [])}
        bad = [o for o in res.obs if not o.ok]
        for o in bad:
            k = listed.get((prop, o.full_key()))
            if k is not None:
                known_matched.append(o.full_key())
                print(f"KNOWN-FINDING: property={prop} {k['what']} [{o.file}:{o.line} {o.where}; rule {o.rule}]")
            else:
                unknown.append(o)
        status = "violations" if unknown else "held"
    except AnalysisError as e:
        res.errors.append(str(e))
        print(f"ANALYSIS-ERROR property={prop} {e}")
    except Exception as e:  # never let a traceback look like a violation
        res.errors.append("".join(traceback.format_exception(type(e), e, e.__traceback__))[-2000:])
        print(f"ANALYSIS-ERROR property={prop} internal error: {type(e).__name__}: {e}")
        if args.verbose:
            traceback.print_exc()
    wall = time.time() - t0
    explanation = (f"Static analysis (Python ast, CFG dominance, def-use, exact rational-function normal forms) of the current sources of {repo.root if repo else '?'}; "
                   f"nothing is executed. Decided clause(s) of {prop}: {spec['clause']} "
                   f"Each obligation is one construct (file:line, function) checked against one rule; a violation names the construct. "
                   f"Positive controls: each rule is re-run on an in-memory variant of the tree with one instance broken and must report it"
                   + (" (thorough: every seeded fault and every benign variant of the rule family)." if tier == "thorough" else "."))
    rule_text = ("obligations are enumerated from the source: one per (rule, construct) pair, e.g. one per field of every subs method, per truth-table row, "
                 "per sampler argument, per pass on each settings path; an obligation is non-trivial unless it is a reviewed exemption or a single-token template hole; "
                 "distinct = distinct (rule, construct) keys")
    if not args.no_evidence:
        try:
            write_evidence(prop, tier, seed, res, repo, wall, explanation, rule_text, known_matched, unknown, ASSUMPTIONS, status)
        except Exception as e:
            print(f"ANALYSIS-ERROR property={prop} cannot write evidence: {e}")
            return 2
    n_ok = len([o for o in res.obs if o.ok and not o.inconclusive])
    for o in res.obs:
        if o.inconclusive:
            print(f"INCONCLUSIVE rule={o.rule} at={o.file}:{o.line} {o.where}: {o.msg}")
    st = res.selftest
    n_inc = len([o for o in res.obs if o.inconclusive])
    kvt = ""
    if st.get("kept_variants"):
        kv = st["kept_variants"]
        kvt = (f"; kept variants: {kv['seeded_reported']}/{kv['seeded_total']} seeded reported, {kv['benign_silent']}/{kv['benign_total']} refactorings silent"
               + (f", {len(kv['skipped_not_applicable'])} not applicable" if kv["skipped_not_applicable"] else ""))
    print(f"[{prop}/{tier}] {len(res.obs)} obligations, {n_ok} hold, {n_inc} inconclusive, {len(known_matched)} known finding(s), {len(unknown)} unlisted violation(s); "
          f"self-test {st['fired_as_expected'] + st['silent_as_expected']}/{st['mutants']} variants as expected{kvt}; {wall:.2f}s")
    if args.verbose:
        for o in res.obs:
            print("   ", o)
    for fl in st["failures"]:
        print(f"SELFTEST-WARNING rule={fl['rule']} variant={fl['mutant']} expected={fl['expect']}: {fl['detail']}")
    if res.errors:
        return 2
    if unknown:
        os.makedirs(os.path.join(HERE, "evidence", "replay"), exist_ok=True)
        path = os.path.join(HERE, "evidence", "replay", f"{prop}.json")
        with open(path, "w") as f:
            json.dump([o.as_dict() for o in unknown], f, indent=1)
        for o in unknown:
            print(f"  {o.file}:{o.line}: [{o.rule}] {o.where}: {o.msg}")
        print(f"VIOLATION property={prop} replay={path}")
        return 1
    if st["failures"] and args.strict_selftest:
        print(f"ANALYSIS-ERROR property={prop} self-test failed (strict mode)")
        return 2
    return 0


if __name__ == "__main__":
    sys.exit(main())
