#!/usr/bin/env python3
"""Static checks for probing-lab/polar.

usage: python3 check.py <Cxx> [--tier quick|thorough] [--replay FILE] [--list]

Decides the structural clauses of one property (DESIGN.md section 4) by analysing
the *source* of /repo (or $POLAR_ROOT) with the rule families in polarlint/.
Nothing of Polar is imported or executed.

exit 0  all obligations hold (or only findings listed in known_findings.json)
exit 1  + line `VIOLATION property=<id> replay=<path>` : an unlisted violation
exit 2  + line `ANALYSIS-ERROR ...` : the checker could not do its job (anchor vanished, crash)
"""
import argparse
import json
import os
import re
import sys
import time
import traceback

HERE = os.path.dirname(os.path.abspath(__file__))
sys.path.insert(0, HERE)

from polarlint.model import Repo, AnalysisError  # noqa: E402
from polarlint.core import Ob, Rule, Result, run_rules, run_mutants, violation_keys, write_evidence, load_known  # noqa: E402
from polarlint.rules import conformance, libcontract, state, splice, pipeline, validate, flow, bayes, mechanisms, formulas, lattice  # noqa: E402

R = {}
for mod in (conformance, libcontract, state, splice, pipeline, validate, flow, bayes, mechanisms, formulas, lattice):
    for k, v in mod.RULES.items():
        if k in R:
            raise SystemExit(f"duplicate rule id {k}")
        R[k] = v


class Spec:
    def __init__(self, rid, include=None, thorough_only=False):
        self.rule = R[rid]
        self.rid = rid
        self.include = re.compile(include) if include else None
        self.thorough_only = thorough_only


def S(rid, include=None, thorough_only=False):
    return Spec(rid, include, thorough_only)


PROPERTIES = {
    "C01": dict(
        specs=[S("FLAGS"), S("LOSSY"), S("SOLVERFLAG"), S("ACTIONS"),
               # necessary conditions shared with C02 / C03 / C19: the pipeline the closed forms come out of
               S("ORDER"), S("A2"), S("CONSTANTS"), S("REBUILD"), S("MEMO"), S("IFFLAT"), S("MULTIASSIGN"), S("DISTREWRITE"), S("SECTIONTABLES"),
               S("D1"), S("A1-cond"), S("A4M"), S("FRESHCTX"), S("SOLVERSCOPE"), S("LOSTUPDATE"),
               S("SPLICE", r"inputparser/|program/"), S("GRAMMAR"), S("PARSER")],
        clause="(i) exactness-flag plumbing: every approximating call clears, and every combiner forwards, the flag that print_is_exact reports; "
               "(ii) pipeline order: a parsed program reaches the recurrence builders only through normalize_program. "
               "NOT decided: that any closed form equals the expectation (value-level)."),
    "C02": dict(
        specs=[S("ORDER"), S("A2"), S("CONSTANTS"), S("REBUILD"), S("MEMO"), S("SPLICE", r"program/transformer/|program/distribution/"), S("FLAG"),
               S("IFFLAT"), S("MULTIASSIGN"), S("DISTREWRITE"), S("COND2ARITHM"), S("SECTIONTABLES"), S("MARKLAST"), S("LOSTUPDATE")],
        clause="typestate of the 10-pass pipeline on all settings paths; write-back of substitutions in all subs implementations; constant folding guarded by a "
               "free-symbol test; section rebuilders keep every assignment; memo invalidation; parenthesised location/scale templates. "
               "NOT decided: semantic equivalence of the if-flattening / alias rewrites."),
    "C03": dict(
        specs=[S("D1"), S("A1-cond"), S("A4M"), S("FRESHCTX"), S("INDICATOR")],
        clause="indicator polynomials of And/Or/Not/True/False equal their boolean meaning on all rows; composite conditions recurse into every child; the three "
               "get_moment bodies share the guarded-assignment shape. NOT decided: Atom's Lagrange indicator, power reduction, closure, coefficients."),
    "C05": dict(
        specs=[S("ENUM"), S("TYPER"), S("TYPERFIX"), S("SUPPORT"), S("SUPPORTKIND"), S("IMPLIED"), S("MARKLAST"), S("GUARD"), S("LRUMUT")],
        clause="discrete supports enumerate the values the moment/sampler sides use; intervals are refused; only non-failed numeric sets become types; the start state "
               "covers the whole initial block; defaults are included unless the condition is implied by the guard; implied-by-guard answers are sound. "
               "NOT decided: that the fixed point covers all reachable values."),
    "C06": dict(
        specs=[S("NULLSPACE"), S("ABSTRACT"), S("GROEBNER"), S("RATLATTICE"), S("INVINPUTS"), S("ALIAS"), S("TRIVIAL"), S("DEADGUARD")],
        clause="no truncation of a rational kernel on the way to exponent vectors; exponentials are abstracted only behind raising checks; the eliminated symbols are "
               "exactly the lex prefix that is filtered. NOT decided: that reported polynomials vanish on the sequences."),
    "C07": dict(
        specs=[S("GROEBNER"), S("INVINPUTS", r"invariant_ideal"), S("RATLATTICE"), S("KAUERS"), S("ALIAS"), S("TRIVIAL"), S("DEADGUARD"), S("NORMDIM")],
        clause="both groebner() calls compute elimination ideals (generator prefix == filtered symbols, lex order). NOT decided: completeness of the exponent lattice."),
    "C08": dict(
        specs=[S("A1-dist"), S("A2", r"program/distribution/"), S("SAMPLERS"), S("ENUM"), S("FLOAT", r"float_to_rational|distribution"), S("CFMGF"), S("DISTREWRITE"), S("SUPPORTKIND"), S("MOMENTS"), S("MGFDOMAIN"), S("STATE", r"program/distribution|classmutable|modstate"), S("LRU", r"program/distribution")],
        clause="every parameter field is consulted by subs/free symbols/sampler/printer/moment/cf/mgf; scipy sampler arguments denote the moment side's law; discrete "
               "enumerations agree; float parameters become exact rationals; cf(t) == mgf(i t) as rational functions. NOT decided: any moment formula."),
    "C09": dict(
        specs=[S("GUARD"), S("ORIGGUARD"), S("AFTERLOOP"), S("IMPLIED"), S("MARKLAST"), S("STATE", r"cli/common|program/condition|classmutable")],
        clause="only the source guard is marked as guard; the termination indicator derives from the source guard; after-loop arms condition on termination and take the "
               "limit; the conditional moment is a ratio over one negated-guard indicator. NOT decided: limits, divergence."),
    "C12": dict(
        specs=[S("D2"), S("D1"), S("SAMPLERS"), S("ENUM"), S("SIMULATOR"), S("VOCAB", r"evaluate_right_side|literal")],
        clause="operator tables of analysis and simulator agree; boolean evaluation equals the indicator; samplers use the moment side's parameter convention and "
               "value enumeration; simulator dispatch / first-match branching / guard stuttering / guarded assignment have the assumed shape. "
               "NOT decided: the distribution of simulated states."),
    "C13": dict(
        specs=[S("MGF"), S("VOCAB"), S("A1-assign", r"FunctionalAssignment|DistAssignment"), S("TRANSFORMTERM"), S("SECTIONTABLES"), S("FRESHCTX"), S("MGFDOMAIN"), S("STATE", r"program/assignment|classmutable|modstate"), S("LRU", r"program/assignment|program/distribution")],
        clause="mgf is used only behind a raising existence test at the order used; function-name literals are in the grammar vocabulary, dispatchers are total, trig/exp "
               "mixing is refused; rounding happens in one funnel. NOT decided: the transform formulas."),
    "C15": dict(
        specs=[S("CPT"), S("CODEGEN"), S("SPLICE", r"bayesnet/"), S("SANITISER"), S("STATE")],
        clause="CPT rows are written only after the row-sum check, in default->table->entries order with a final completeness check; generated code is in topological "
               "order, numbers values by domain position of their own variable; names are sanitised to grammar atoms. NOT decided: numeric query answers."),
    "C16": dict(
        specs=[S("NULLSPACE"), S("KAUERS"), S("RATLATTICE"), S("ALIAS"), S("TRIVIAL"), S("NORMDIM")],
        clause="the rational kernel is not truncated to integers; the LLL loop returns only what passed the exact membership test. NOT decided: independence, completeness."),
    "C17": dict(
        specs=[S("SETTINGS-W"), S("SETTINGS-C"), S("ROOTS"), S("LOSSY", r"utils/expressions.py"), S("SOLVERFLAG"), S("REBUILD"), S("PARSER", r"_transform_categorical"),
               S("ORDER", r"cond2arithm=True"), S("COND2ARITHM"), S("FLAGS")],
        clause="options are written only by the CLI setter and read at call time; settings<->options<->setter census; every root source is complete and approximations clear "
               "the flag; cond2arithm keeps every assignment; categorical expansion keeps index/value/probability aligned. NOT decided: equality of closed forms across settings."),
    "C19": dict(
        specs=[S("SPLICE", r"inputparser/"), S("GRAMMAR"), S("PARSER"), S("FLOAT")],
        clause="parser templates are precedence-safe; arithmetic is re-stringified token by token; probability vectors and assigned names are validated; floats become "
               "exact rationals; simultaneous assignment puts all temporaries first. NOT decided: equality of the analyses of two spellings."),
    "C20": dict(
        specs=[S("SETTINGS-W"), S("STATE"), S("RANDOM"), S("LRU"), S("FLAG"), S("SETORDER"), S("SOLVERSCOPE"), S("FRESHCTX"), S("LRUMUT")],
        clause="inventory of process-global mutable state equals the reviewed table; settings are not written outside the setter (except scoped overrides); memoised "
               "callables read nothing the analysis phase mutates; order-sensitive consumers of sets equal the reviewed table; randomness only in the simulator; the class flag is refreshed by every normalisation. "
               "NOT decided: equality of results across histories / hash seeds."),
}

ASSUMPTIONS = [
    "trusted base: CPython's ast parser; the documented conventions of scipy.stats (loc/scale/shape), sympy (Poly.intervals, roots, nullspace, groebner) and lark",
    "frozen tables in polarlint/rules/* (sampler contracts, pass-order reasons, reviewed global state) are reviewed knowledge; each entry is tied to a code witness",
    "a clause decided here is a necessary condition of the property, not the property itself (see 'explanation')",
]


def main(argv=None):
    ap = argparse.ArgumentParser()
    ap.add_argument("prop", nargs="?")
    ap.add_argument("--tier", default=os.environ.get("VERIF_TIER", "quick"))
    ap.add_argument("--replay")
    ap.add_argument("--list", action="store_true")
    ap.add_argument("--root", default=None)
    ap.add_argument("--no-evidence", action="store_true")
    ap.add_argument("--strict-selftest", action="store_true", default=os.environ.get("POLARLINT_STRICT_SELFTEST") == "1")
    ap.add_argument("-v", "--verbose", action="store_true")
    args = ap.parse_args(argv)
    if args.list:
        for p, d in PROPERTIES.items():
            print(p, [s.rid for s in d["specs"]])
        return 0
    if args.replay:
        with open(args.replay) as f:
            print(f.read())
        return 0
    prop = args.prop
    if prop not in PROPERTIES:
        print(f"ANALYSIS-ERROR unknown or unclaimed property {prop}")
        return 2
    tier = args.tier if args.tier in ("quick", "thorough") else "quick"
    try:
        seed = int(os.environ.get("VERIF_SEED", "0"))
    except ValueError:
        seed = 0
    t0 = time.time()
    res = Result()
    repo = None
    spec = PROPERTIES[prop]
    status = "error"
    unknown = []
    known_matched = []
    try:
        repo = Repo(args.root)
        specs = [s for s in spec["specs"] if tier == "thorough" or not s.thorough_only]
        rules = []
        seen = set()
        for s in specs:
            if s.rid not in seen:
                seen.add(s.rid)
                rules.append(s.rule)
        all_obs = []
        base_all = set()
        for s in specs:
            obs = s.rule.run(repo)
            res.rule_stats[s.rid] = {"rule": s.rule.id, "instances": len(obs), "floor": s.rule.floor,
                                     "violations_unfiltered": len([o for o in obs if not o.ok]), "doc": s.rule.doc,
                                     "filter": s.include.pattern if s.include else None}
            if len(obs) < s.rule.floor and not any(o.inconclusive for o in obs):
                raise AnalysisError(f"rule {s.rid} ({s.rule.id}): {len(obs)} instance(s), floor {s.rule.floor}: anchor vanished or discovery broken")
            base_all |= violation_keys(obs)
            if s.include is not None:
                obs = [o for o in obs if s.include.search(o.key) or s.include.search(o.file)]
                if not obs:
                    obs = [Ob(s.rule.id, f"{s.rid}::scope-empty::{s.include.pattern}", "", 0, "", True,
                              f"rule {s.rid} found no construct within the scope /{s.include.pattern}/ of this property", trivial=True)]
            res.rule_stats[s.rid]["selected"] = len(obs)
            all_obs += obs
        # de-duplicate (a rule may be listed twice with different filters)
        uniq = {}
        for o in all_obs:
            uniq.setdefault(o.full_key(), o)
        res.obs = list(uniq.values())
        # positive controls (quick) / full mutation sweep (thorough)
        jobs = min(16, os.cpu_count() or 1) if tier == "thorough" else min(8, os.cpu_count() or 1)
        run_mutants(repo, rules, res, base_all, only_controls=(tier == "quick"), jobs=jobs)
        # verdict
        known = load_known()
        listed = {(k["property"], k["key"]): k for k in known.get("known", [])}
        bad = [o for o in res.obs if not o.ok]
        for o in bad:
            k = listed.get((prop, o.full_key()))
            if k is not None:
                known_matched.append(o.full_key())
                print(f"KNOWN-FINDING: property={prop} {k['what']} [{o.file}:{o.line} {o.where}; rule {o.rule}]")
            else:
                unknown.append(o)
        status = "violations" if unknown else "held"
    except AnalysisError as e:
        res.errors.append(str(e))
        print(f"ANALYSIS-ERROR property={prop} {e}")
    except Exception as e:  # never let a traceback look like a violation
        res.errors.append("".join(traceback.format_exception(type(e), e, e.__traceback__))[-2000:])
        print(f"ANALYSIS-ERROR property={prop} internal error: {type(e).__name__}: {e}")
        if args.verbose:
            traceback.print_exc()
    wall = time.time() - t0
    explanation = (f"Static analysis (Python ast, CFG dominance, def-use, exact rational-function normal forms) of the current sources of {repo.root if repo else '?'}; "
                   f"nothing is executed. Decided clause(s) of {prop}: {spec['clause']} "
                   f"Each obligation is one construct (file:line, function) checked against one rule; a violation names the construct. "
                   f"Positive controls: each rule is re-run on an in-memory variant of the tree with one instance broken and must report it"
                   + (" (thorough: every seeded fault and every benign variant of the rule family)." if tier == "thorough" else "."))
    rule_text = ("obligations are enumerated from the source: one per (rule, construct) pair, e.g. one per field of every subs method, per truth-table row, "
                 "per sampler argument, per pass on each settings path; an obligation is non-trivial unless it is a reviewed exemption or a single-token template hole; "
                 "distinct = distinct (rule, construct) keys")
    if not args.no_evidence:
        try:
            write_evidence(prop, tier, seed, res, repo, wall, explanation, rule_text, known_matched, unknown, ASSUMPTIONS, status)
        except Exception as e:
            print(f"ANALYSIS-ERROR property={prop} cannot write evidence: {e}")
            return 2
    n_ok = len([o for o in res.obs if o.ok and not o.inconclusive])
    for o in res.obs:
        if o.inconclusive:
            print(f"INCONCLUSIVE rule={o.rule} at={o.file}:{o.line} {o.where}: {o.msg}")
    st = res.selftest
    n_inc = len([o for o in res.obs if o.inconclusive])
    print(f"[{prop}/{tier}] {len(res.obs)} obligations, {n_ok} hold, {n_inc} inconclusive, {len(known_matched)} known finding(s), {len(unknown)} unlisted violation(s); "
          f"self-test {st['fired_as_expected'] + st['silent_as_expected']}/{st['mutants']} variants as expected; {wall:.2f}s")
    if args.verbose:
        for o in res.obs:
            print("   ", o)
    for fl in st["failures"]:
        print(f"SELFTEST-WARNING rule={fl['rule']} variant={fl['mutant']} expected={fl['expect']}: {fl['detail']}")
    if res.errors:
        return 2
    if unknown:
        os.makedirs(os.path.join(HERE, "evidence", "replay"), exist_ok=True)
        path = os.path.join(HERE, "evidence", "replay", f"{prop}.json")
        with open(path, "w") as f:
            json.dump([o.as_dict() for o in unknown], f, indent=1)
        for o in unknown:
            print(f"  {o.file}:{o.line}: [{o.rule}] {o.where}: {o.msg}")
        print(f"VIOLATION property={prop} replay={path}")
        return 1
    if st["failures"] and args.strict_selftest:
        print(f"ANALYSIS-ERROR property={prop} self-test failed (strict mode)")
        return 2
    return 0


if __name__ == "__main__":
    sys.exit(main())
