import sys, time
sys.path.insert(0, '/verif')
from polarlint.model import Repo
from polarlint.core import run_rules, Result, run_mutants, violation_keys
import importlib
modname, *ids = [a for a in sys.argv[1:] if not a.startswith("-")]
mod = importlib.import_module('polarlint.rules.' + modname)
repo = Repo()
for rid in ids or list(mod.RULES):
    r = mod.RULES[rid]
    t = time.time()
    obs = r.run(repo)
    bad = [o for o in obs if not o.ok]
    print(f"== {rid} {r.id}: {len(obs)} obligations, {len(bad)} violations, floor {r.floor}  ({time.time()-t:.2f}s)")
    for o in bad: print("   ", o)
    if '-v' in sys.argv:
        for o in obs: print("   ", o)
    if r.mutants and '-m' in sys.argv:
        res = Result()
        t = time.time()
        run_mutants(repo, [r], res, violation_keys(obs), only_controls=False, jobs=16)
        print("   mutants", res.selftest['mutants'], "fire-ok", res.selftest['fired_as_expected'], "silent-ok", res.selftest['silent_as_expected'], f"({time.time()-t:.1f}s)")
        for f in res.selftest['failures']: print("   FAIL", f)
